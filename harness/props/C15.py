"""C15 — controller laws respect their saturations and vanish exactly at zero error."""
from __future__ import annotations

import math

import numpy as np

import numlib as nl

ID = "C15"
MODULES = ["Series", "SO2", "SE2", "Rn", "SO3", "Ctrl", "Ref", "RefP"]
LEAN_TARGETS = ["Props.C15", "Props.C15A", "Props.C15B"]
ANCHORS = ["cyecca/models/rdd2.py", "cyecca/models/rdd2_loglinear.py"]
MISSING = [
    "auto-level stick map bounds as theorems — numeric search only",
    "log-linear SO(3) law: omega = J_l(e) diag(kp) e with e the library's quaternion log of q^-1 (x) q_r IS a theorem for every input (Props/C15A); "
    "with a scalar gain it commands k times the rotation vector (J_l(e) e = e) and, for k = 1, reaches the reference on the closed-form cells "
    "(Props/C15B); unequal gains, Taylor cells and the error angle pi — numeric search, including exact and near half-turn errors",
    "attitude law 'reaches the reference': theorem for rdd2.attitude_control on the closed-form cells with unit gains; Taylor cells, the error angle pi, and the "
    "so3 / SE_2(3) log-linear attitude laws — numeric search",
]
M_VEH, G = 2.24, 9.8


def relevant(fn):
    return True


def qmul(a, b):
    return np.array([a[0]*b[0]-a[1:]@b[1:], *(a[0]*b[1:]+b[0]*a[1:]+np.cross(a[1:], b[1:]))])


def search(ctx):
    rng = np.random.default_rng(ctx.seed + 1515)
    found = []
    ev = 0

    def report(case, what, inputs, err, tol):
        if not any(z["case"] == case for z in found):
            found.append({"case": case, "what": what, "inputs": inputs, "error": float(err), "tolerance": tol,
                          "obligation": "search:" + case})
    n = 60 if ctx.tier == "quick" else 2000
    F = nl.F
    # ---- rate controller: invariant of the recursion over arbitrarily long step sequences
    rc = F("Ctrl", "rdd2.attitude_rate_control")
    for seq in range(max(3, n // 20)):
        kp, ki, kd = rng.uniform(0, 2, 3), rng.uniform(0, 2, 3), rng.uniform(0, 0.2, 3)
        i_max = rng.uniform(0, 1, 3) * rng.choice([0.0, 0.1, 1.0, 10.0])
        f_cut = float(rng.choice([1.0, 10.0, 100.0, 1e4])); dt = float(rng.choice([1e-4, 1e-3, 0.01, 0.1]))
        i0, e0, de0 = rng.standard_normal(3) * 100, rng.standard_normal(3), rng.standard_normal(3)   # arbitrary previous state
        for step in range(25):
            om, omr = rng.standard_normal(3) * 10, rng.standard_normal(3) * 10
            M, i1, e1, de1, alpha = rc(kp, ki, kd, f_cut, i_max, om, omr, i0, e0, de0, dt); ev += 1
            inp = {"i_max": i_max.tolist(), "i0": np.asarray(i0).tolist(), "omega": om.tolist(), "omega_r": omr.tolist(), "dt": dt, "f_cut": f_cut, "step": step}
            if not np.all(np.abs(i1) <= i_max + 1e-15):
                report("rate:integrator", "integrator output leaves +-i_max", inp, np.max(np.abs(i1) - i_max), 0)
            if not (0 < alpha < 1):
                report("rate:alpha", "derivative-filter coefficient not strictly between 0 and 1", inp, alpha, 0)
            want_i = np.clip(i0 + (omr - om) * dt, -i_max, i_max)
            wde = alpha * ((omr - om - e0) / dt) + (1 - alpha) * de0
            wM = kp * (omr - om) + ki * want_i + kd * wde
            if not (np.max(np.abs(i1 - want_i)) <= 1e-12 * (1 + np.max(np.abs(want_i))) and np.max(np.abs(M - wM)) <= 1e-9 * (1 + np.max(np.abs(wM)))):
                report("rate:law", "rate controller is not kp e + ki sat(i0 + e dt) + kd filtered derivative", inp, np.max(np.abs(M - wM)), 1e-9)
            i0, e0, de0 = i1, e1, de1
    # ---- stick maps
    acro = F("Ctrl", "rdd2.input_acro"); lvl = F("Ctrl", "rdd2.input_auto_level")
    d2r = math.pi / 180
    for it in range(n):
        st = rng.uniform(-1, 1, 4) if it % 4 else rng.choice([-1.0, 0.0, 1.0], 4)
        trim, delta = rng.uniform(0, 30), rng.uniform(0, 30)
        w, th = acro(trim, delta, st); ev += 1
        want = np.array([60 * d2r * st[0], 60 * d2r * st[1], 60 * d2r * st[3]])
        if not (np.max(np.abs(w - want)) <= 1e-12 and abs(th - (st[2] * delta + trim)) <= 1e-12 and np.all(np.abs(w) <= 60 * d2r + 1e-12)):
            report("stick:acro", "acro stick map is not the bounded linear map", {"input_aetr": st.tolist()}, np.max(np.abs(w - want)), 1e-12)
        q = nl.unit_quat(rng)
        e = np.array([math.atan2(2*(q[0]*q[3]+q[1]*q[2]), 1-2*(q[2]**2+q[3]**2)), 0, 0])
        q_r, th2 = lvl(trim, delta, st, q); ev += 1
        if not abs(np.linalg.norm(q_r) - 1) <= 1e-9:
            report("stick:auto_level:unit", "auto-level set-point quaternion not unit", {"input_aetr": st.tolist(), "q": q.tolist()}, abs(np.linalg.norm(q_r) - 1), 1e-9)
        R = nl.quat_to_R(q_r)
        pitch = math.asin(max(-1, min(1, -R[2, 0]))); roll = math.atan2(R[2, 1], R[2, 2])
        if not (abs(pitch - 30 * d2r * st[1]) <= 1e-9 and abs(roll - 30 * d2r * st[0]) <= 1e-9 and abs(th2 - (st[2] * delta + trim)) <= 1e-12):
            report("stick:auto_level", "auto-level angles are not 30deg x stick / thrust not linear", {"input_aetr": st.tolist(), "q": q.tolist()}, abs(pitch - 30 * d2r * st[1]), 1e-9)
    # ---- velocity-mode input: recursion over step sequences
    iv = F("Ctrl", "rdd2.input_velocity")
    for seq in range(max(3, n // 20)):
        psi = float(rng.uniform(-3.1, 3.1)); pw_sp = rng.standard_normal(3) * 5
        pw = pw_sp + rng.standard_normal(3) * rng.choice([0.1, 1.0, 5.0])
        for step in range(40):
            dt = float(rng.choice([0.01, 0.02, 0.1, 1.0, 5.0]))
            st = rng.uniform(-1, 1, 4)
            reset = float(step % 13 == 7)
            psi1, pv, pw_sp1, vw, aw, q_sp = iv(dt, psi, pw_sp, pw, st, reset); ev += 1
            inp = {"dt": dt, "psi_sp": psi, "pw_sp": np.asarray(pw_sp).tolist(), "pw": pw.tolist(), "input_aetr": st.tolist(), "reset": reset}
            if not (-math.pi - 1e-12 <= psi1 <= math.pi + 1e-12):
                report("velocity:yaw", "yaw set-point leaves [-pi, pi]", inp, abs(psi1) - math.pi, 1e-12)
            if not np.linalg.norm(pw_sp1 - pw) <= 2 + 1e-9:
                report("velocity:leash", "position set-point farther than 2 m from the vehicle", inp, np.linalg.norm(pw_sp1 - pw) - 2, 1e-9)
            if reset and not np.max(np.abs(pw_sp1 - pw)) <= 1e-12:
                report("velocity:reset", "reset does not put the set-point on the vehicle", inp, np.max(np.abs(pw_sp1 - pw)), 1e-12)
            wrapped = math.remainder(psi + 60 * d2r * st[3] * dt, 2 * math.pi)
            if not abs(psi1 - wrapped) <= 1e-9:
                report("velocity:yaw-law", "yaw set-point is not the wrapped integral of the stick", inp, abs(psi1 - wrapped), 1e-9)
            if not abs(np.linalg.norm(q_sp) - 1) <= 1e-9:
                report("velocity:q_sp", "yaw quaternion not unit", inp, abs(np.linalg.norm(q_sp) - 1), 1e-9)
            psi, pw_sp = float(psi1), pw_sp1
            pw = pw + rng.standard_normal(3) * 0.3
    # ---- position controller: feedback term <= 30 % of weight, height integrator within its limit
    pc = F("Ref", "rdd2.position_control")
    for it in range(n):
        trim = rng.uniform(5, 30); sc = rng.choice([0.1, 1.0, 10.0, 100.0])
        pt, vt, at = rng.standard_normal(3) * sc, rng.standard_normal(3) * sc, rng.standard_normal(3)
        p, v = rng.standard_normal(3) * sc, rng.standard_normal(3) * sc
        qc = nl.unit_quat(rng); zi = rng.standard_normal() * 5; dt = 0.01
        nT, qr, zi2 = pc(trim, pt, vt, at, qc, p, v, zi, dt); ev += 1
        inp = {"thrust_trim": trim, "pt_w": pt.tolist(), "vt_w": vt.tolist(), "at_w": at.tolist(), "p_w": p.tolist(), "v_w": v.tolist(), "z_i": zi}
        T = nT * nl.quat_to_R(qr)[:, 2]
        pterm = T - (trim + 0.05 * zi) * np.array([0, 0, 1.0])
        if nT > 1e-3 and not np.linalg.norm(pterm) <= 0.3 * M_VEH * G * (1 + 1e-9) + 1e-9:
            report("position:feedback", "feedback term exceeds 30 % of weight", inp, np.linalg.norm(pterm) - 0.3 * M_VEH * G, 1e-9)
        if not abs(zi2) <= 0.0 + 1e-15:
            report("position:integrator", "height integrator leaves its limit", inp, abs(zi2), 0)
    # ---- SE2(3) outer loop: same bounds (feedback term <= 30 % of the weight m g, whatever the trim), integrator within its limit
    spc = F("Ref", "loglinear.se23_position_control")
    for it in range(n):
        trim = rng.uniform(5, 40); sc = rng.choice([0.1, 1.0, 10.0, 100.0])
        zeta = np.concatenate([rng.standard_normal(6) * sc, rng.standard_normal(3) * 0.5]); at = rng.standard_normal(3)
        yaw = rng.uniform(-np.pi, np.pi); qc = np.array([np.cos(yaw / 2), 0, 0, np.sin(yaw / 2)]); zi = rng.standard_normal() * 5; dt = 0.01
        kpa = rng.uniform(0.5, 5, 3)
        nT, qr, zi2 = spc(trim, kpa, zeta, at, qc, zi, dt); ev += 1
        nT = float(nT); qr = np.array(qr).ravel()
        inp = {"thrust_trim": trim, "kp": kpa.tolist(), "zeta": zeta.tolist(), "at_w": at.tolist(), "qc": qc.tolist(), "z_i": zi}
        T = nT * nl.quat_to_R(qr)[:, 2]
        pterm = T - (trim + 0.05 * zi) * np.array([0, 0, 1.0])
        if nT > 1e-3 and not np.linalg.norm(pterm) <= 0.3 * M_VEH * G * (1 + 1e-9) + 1e-9:
            report("se23_position:feedback", "feedback term of the SE2(3) outer loop exceeds 30 % of weight", inp, np.linalg.norm(pterm) - 0.3 * M_VEH * G, 1e-9)
        if not abs(float(zi2)) <= 0.0 + 1e-15:
            report("se23_position:integrator", "height integrator of the SE2(3) outer loop leaves its limit", inp, abs(float(zi2)), 0)
    # ---- attitude laws
    ac = F("Ctrl", "rdd2.attitude_control"); sac = F("Ctrl", "loglinear.so3_attitude_control"); se = F("Ctrl", "loglinear.se23_error")
    expq = F("SO3", "SO3Quat.exp") if False else None
    for it in range(n + 16):
        q = nl.unit_quat(rng)
        kind = it % 5
        if it >= n:
            # half-turn errors: exactly 180 deg (error quaternion with zero scalar part) and angles closing in on it from both sides
            ax = nl.rand_axis(rng) if (it - n) % 4 else np.eye(3)[(it - n) // 4 % 3]
            d = [0.0, 1e-9, -1e-7, 1e-5, 0.0, -1e-3, 1e-8, 3e-2][(it - n) % 8]
            qe = np.concatenate([[0.0], ax]) if d == 0.0 else nl.quat_axis_angle(ax, np.pi + d)
            q_r = qmul(q, qe)
            if it % 2:
                q_r = -q_r
        elif kind == 0:
            q_r = q.copy()
        elif kind == 1:
            q_r = -q
        else:
            ang = [1e-6, 0.3, 2.0, 3.0][kind - 1] if kind - 1 < 4 else 1.0
            q_r = qmul(q, nl.quat_axis_angle(nl.rand_axis(rng), ang))
            if it % 2:
                q_r = -q_r
        kp = rng.uniform(0.5, 3, 3)
        om = np.atleast_1d(ac(kp, q, q_r)); ev += 1
        inp = {"kp": kp.tolist(), "q": q.tolist(), "q_r": q_r.tolist()}
        if not np.all(np.isfinite(om)):
            report("attitude:finite", "attitude controller output not finite", inp, 1.0, 0); continue
        same = it < n and kind in (0, 1)
        if same and not np.max(np.abs(om)) <= 1e-7:
            report("attitude:zero", "command not zero although measured and reference attitude are the same rotation", inp, np.max(np.abs(om)), 1e-7)
        om1 = np.atleast_1d(ac(np.ones(3), q, q_r))
        Rreach = nl.quat_to_R(q) @ nl.expm(nl.hat(om1))
        err = np.max(np.abs(Rreach - nl.quat_to_R(q_r)))
        if not err <= 1e-7:
            report("attitude:reach", "applying the commanded rotation (kp = 1) does not reach the reference", inp, err, 1e-7)
        if not np.max(np.abs(om - kp * om1)) <= 1e-9 * (1 + np.max(np.abs(om1))):
            report("attitude:gain", "command is not the gain-scaled rotation vector", inp, np.max(np.abs(om - kp * om1)), 1e-9)
        # log-linear SO(3) law with a scalar gain: J_l(e) k e = k e
        k = float(rng.uniform(0.5, 3))
        om2 = np.atleast_1d(sac(k * np.ones(3), q, q_r)); ev += 1
        if not np.max(np.abs(om2 - k * om1)) <= 1e-8 * (1 + k * np.max(np.abs(om1))):
            report("so3_attitude:law", "so3_attitude_control with equal gains is not k times the rotation vector", inp, np.max(np.abs(om2 - k * om1)), 1e-8)
        # se23 error is zero iff same element
        pv = rng.standard_normal(6)
        z = np.atleast_1d(se(pv[:3], pv[3:], q, pv[:3], pv[3:], q_r)); ev += 1
        if same and not np.max(np.abs(z)) <= 1e-7:
            report("se23_error:zero", "SE_2(3) error not zero for identical elements", inp, np.max(np.abs(z)), 1e-7)
    ctx.samples.extend(found[:3] or [{"q": [1, 0, 0, 0], "q_r": [-1, 0, 0, 0], "note": "same rotation, opposite sign"}])
    return found, {"evaluations": ev, "distinct_nontrivial": ev}


def replay(payload):
    class C:
        seed = 0; tier = "quick"; samples = []; notes = []
    found, _ = search(C())
    cases = {v.get("case") for v in payload.get("violations", [])}
    hit = [z for z in found if z["case"] in cases]
    for z in hit:
        print("reproduced:", z["case"], z["what"], z["error"], z["inputs"])
    return not hit
