"""C05 — Jacobians are the true differentials of exp and of attitude kinematics."""
from __future__ import annotations

import numpy as np

import numlib as nl
from props import common

ID = "C05"
MODULES = ["Series", "SO2", "SE2", "Rn", "SO3", "SE3", "SE23"]
LEAN_TARGETS = ["Props.C05", "Props.C05A", "Props.C05B"]
ANCHORS = ["cyecca/lie/group_so3.py", "cyecca/lie/group_se3.py", "cyecca/lie/group_se23.py"]
MISSING = [
    "that sum_n ad^n/(n+1)! IS the differential of exp on se(3)/se_2(3) (derivative-of-the-exponential-map theorem is not in Mathlib): "
    "cited as mathematics; the code's J_l is tied to it numerically (series + finite differences) by the search",
    "se(3)/se_2(3) Q-block closed forms as theorems — numeric search only",
]

ALGS = [("so3", "SO3", 3, "SO3Quat"), ("se3", "SE3", 6, "SE3Quat"), ("se23", "SE23", 9, "SE23Quat")]


AXIS_TURN = [0]


def relevant(fn):
    return "jacobian" in fn or fn.split(".")[-1] in ("left_Q", "right_Q", "ad", "Ad", "exp", "toMatrix")


def jl_series(A, n=60):
    J = np.zeros_like(A); T = np.eye(A.shape[0]); f = 1.0
    for k in range(n):
        f *= (k + 1)
        J += T / f
        T = T @ A
    return J


def search(ctx):
    rng = np.random.default_rng(ctx.seed + 505)
    found = []
    ev = 0

    def report(case, what, inputs, err, tol):
        if not any(z["case"] == case for z in found):
            found.append({"case": case, "what": what, "inputs": inputs, "error": float(err), "tolerance": tol,
                          "obligation": "search:" + case})
    reps = 2 if ctx.tier == "quick" else 25
    mags = [0.0, 1e-8, 1e-3, 0.02, 0.0316, 0.0317, 0.0633, 0.4, 1.3, 2.3, 2.7, 3.1, 3.6, 4.0, 5.0, 6.0]
    AXIS_TURN[0] = 0
    for alg, mod, k, grp in ALGS:
        Jl = nl.F(mod, alg + ".left_jacobian"); Jli = nl.F(mod, alg + ".left_jacobian_inv")
        Jr = nl.F(mod, alg + ".right_jacobian"); Jri = nl.F(mod, alg + ".right_jacobian_inv")
        ad = nl.F(mod, alg + ".ad"); Ad = nl.F(mod, grp + ".Ad"); expf = nl.F(mod, grp + ".exp")
        toM = nl.F(mod, grp + ".toMatrix"); hat = nl.F(mod, alg + ".toMatrix")
        for mag in mags:
            for r in range(reps):
                x = rng.standard_normal(k) * 1.2
                x[k - 3:] = nl.rand_axis(rng) * mag
                if r == 1 and mag > 2.0:
                    # axis dominated by one coordinate (either sign): with angles of 120..240 degrees these select the three
                    # trace <= 0 branches of the matrix -> quaternion extraction that se_2(3)'s exp goes through
                    ax = rng.standard_normal(3) * 0.15; ax[AXIS_TURN[0] % 3] = 1.0 if (AXIS_TURN[0] // 3) % 2 == 0 else -1.0
                    AXIS_TURN[0] += 1
                    x[k - 3:] = ax / np.linalg.norm(ax) * mag
                L, Li, Rj, Ri = Jl(x), Jli(x), Jr(x), Jri(x); ev += 1
                inp = {"x": x.tolist(), "rotation_magnitude": mag}
                sc = 1 + np.max(np.abs(L)) * np.max(np.abs(Li))
                tol = 1e-8 * sc / max(1e-3, abs(np.sin(mag / 2)) if mag > 3 else 1.0)
                I = np.eye(k)
                for nm, A, B in (("left", L, Li), ("right", Rj, Ri)):
                    e = max(np.max(np.abs(A @ B - I)), np.max(np.abs(B @ A - I)))
                    if not e <= tol:
                        report("%s.%s_jacobian_inv" % (alg, nm), "%s Jacobian times its published inverse is not the identity" % nm, inp, e, tol)
                ref = jl_series(np.atleast_2d(ad(x)))
                e = np.max(np.abs(L - ref))
                if not e <= 1e-9 * (1 + np.max(np.abs(ref))):
                    report(alg + ".left_jacobian:series", "J_l != sum_n ad_x^n/(n+1)! (the differential of exp)", inp, e, 1e-9)
                refr = jl_series(-np.atleast_2d(ad(x)))
                e = np.max(np.abs(Rj - refr))
                if not e <= 1e-9 * (1 + np.max(np.abs(refr))):
                    report(alg + ".right_jacobian:series", "J_r != sum_n (-ad_x)^n/(n+1)!", inp, e, 1e-9)
                e = np.max(np.abs(L - Jr(-x)))
                if not e <= 1e-10 * (1 + np.max(np.abs(L))):
                    report(alg + ".jl_jr_neg", "J_l(x) != J_r(-x)", inp, e, 1e-10)
                if mag < 6.2:
                    A = np.atleast_2d(Ad(np.atleast_1d(expf(x))))
                    e = np.max(np.abs(L - A @ Rj))
                    if not e <= 1e-8 * (1 + np.max(np.abs(L))):
                        report(alg + ".jl_Ad_jr", "J_l != Ad_exp(x) J_r", inp, e, 1e-8)
                # first-order: exp(x + eps d) exp(x)^-1 = 1 + eps hat(J_l d) + O(eps^2)   (central difference)
                if mag < 6.0:
                    d = rng.standard_normal(k); eps = 1e-5
                    Mp = np.atleast_2d(toM(np.atleast_1d(expf(x + eps * d)))); Mm = np.atleast_2d(toM(np.atleast_1d(expf(x - eps * d))))
                    M0 = np.atleast_2d(toM(np.atleast_1d(expf(x))))
                    lhs = (Mp - Mm) / (2 * eps) @ np.linalg.inv(M0)
                    rhs = np.atleast_2d(hat(L @ d))
                    e = np.max(np.abs(lhs - rhs))
                    if not e <= 2e-6 * (1 + np.max(np.abs(rhs))) * (1 + np.max(np.abs(x)) ** 2):
                        report(alg + ".left_jacobian:differential", "exp(x + eps d) exp(x)^-1 != exp(eps J_l d) to first order", dict(inp, d=d.tolist()), e, 2e-6)
                    lhs = np.linalg.inv(M0) @ (Mp - Mm) / (2 * eps)
                    rhs = np.atleast_2d(hat(Rj @ d))
                    e = np.max(np.abs(lhs - rhs))
                    if not e <= 2e-6 * (1 + np.max(np.abs(rhs))) * (1 + np.max(np.abs(x)) ** 2):
                        report(alg + ".right_jacobian:differential", "exp(x)^-1 exp(x + eps d) != exp(eps J_r d) to first order", dict(inp, d=d.tolist()), e, 2e-6)
    # group-level kinematic Jacobians
    qL = nl.F("SO3", "SO3Quat.left_jacobian"); qR = nl.F("SO3", "SO3Quat.right_jacobian"); mR = nl.F("SO3", "SO3Mrp.right_jacobian")
    toMm = nl.F("SO3", "SO3Mrp.toMatrix")
    for it in range(30 if ctx.tier == "quick" else 600):
        q = nl.unit_quat(rng); w = rng.standard_normal(3) * 2; ev += 1
        R = nl.quat_to_R(q)
        for nm, J, want in (("left", qL(q), nl.hat(w) @ R), ("right", qR(q), R @ nl.hat(w))):
            qd = J @ w
            dR = (nl.quat_to_R(q + 1e-4 * qd) - nl.quat_to_R(q - 1e-4 * qd)) / 2e-4   # exact for a quadratic map
            e = np.max(np.abs(dR - want))
            if not e <= 1e-8 * (1 + np.max(np.abs(want))):
                report("SO3Quat.%s_jacobian:kinematics" % nm, "q' = J w does not give R' = %s" % ("[w]x R" if nm == "left" else "R [w]x"),
                       {"q": q.tolist(), "w": w.tolist()}, e, 1e-8)
            if not abs(q @ qd) <= 1e-10 * (1 + np.max(np.abs(w))):
                report("SO3Quat.%s_jacobian:norm" % nm, "q . (J w) != 0: unit norm not preserved", {"q": q.tolist(), "w": w.tolist()}, abs(q @ qd), 1e-10)
        r = common.s_mrp(rng)
        rd = mR(r) @ w
        eps = 1e-5
        dR = (toMm(r + eps * rd) - toMm(r - eps * rd)) / (2 * eps)
        want = toMm(r) @ nl.hat(w)
        e = np.max(np.abs(dR - want))
        if not e <= 1e-6 * (1 + np.max(np.abs(want))) * (1 + r @ r):
            report("SO3Mrp.right_jacobian:kinematics", "r' = B(r) w does not give R' = R [w]x", {"r": r.tolist(), "w": w.tolist()}, e, 1e-6)
    ctx.samples.extend(found[:3] or [{"algebra": "se3", "x": [0.3, -1, 0.5, 0.2, 0.1, -0.4]}])
    return found, {"evaluations": ev, "distinct_nontrivial": ev}


def replay(payload):
    class C:
        seed = 0; tier = "quick"; samples = []; notes = []
    found, _ = search(C())
    cases = {v.get("case") for v in payload.get("violations", [])}
    hit = [z for z in found if z["case"] in cases]
    for z in hit:
        print("reproduced:", z["case"], z["what"], z["error"], z["inputs"])
    return not hit
