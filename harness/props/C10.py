"""C10 — filter numerics: square-root covariance algebra, factorizations, RK4."""
from __future__ import annotations

import numpy as np

import numlib as nl

ID = "C10"
MODULES = ["Util"]
LEAN_TARGETS = ["Props.C10", "Props.C10G"]
ANCHORS = ["cyecca/util.py"]
MISSING = [
    "sqrt_correct: generic theorem Lib/SqrtFilter for all dimensions under the QR contract (Q^T Q = 1, Q R = A), instantiated on the QR-abstracted "
    "variant of the real routine for n = 3, m = 2 (and on the estimator's 6x1 / 6x2 uses in C11); n = m = 1 with CasADi's symbolic QR inlined; "
    "ca.qr meeting the contract, and the variant composed with ca.qr being the shipped routine, are checked numerically each run; other sizes: search only",
    "LDL^T for EVERY size n: theorems of Props/C10G over the hand model Model/Ldl.lean (unit lower triangular L, L D L^T = P on the lower triangle "
    "given non-zero pivots, on the whole matrix for symmetric P), PROVED equal to the translated programs of sizes 2, 3, 4 (gen_ldlN_L / gen_ldlN_D) and tied to the real routine by the correspondence run of this check "
    "(sizes 1..6, unit / tiny / huge / mixed scales, symmetric and non-symmetric input) — that second tie is sampled, not proved; UDU^T for every n: not modelled generically (proved for the translated sizes)",
    "RK4 order 4 for arbitrary smooth vector fields (proved: exact for cubic-in-time derivatives, degree-4 Taylor polynomial of the linear ODE, consistency)",
]


TRUSTED_EXTRA = ["hand model Model/Ldl.lean of ldl_symmetric_decomposition for every size: tied to the routine by differential runs (relative 1e-12 per entry)"]


def relevant(fn):
    return True


def _bits(x):
    import struct
    return str(struct.unpack("<Q", struct.pack("<d", float(x)))[0])


def _unbits(w):
    import struct
    return struct.unpack("<d", struct.pack("<Q", int(w)))[0]


def _lean_ldl(lines):
    import os, subprocess
    VERIF = os.path.dirname(os.path.dirname(os.path.dirname(os.path.abspath(__file__))))
    LEAN = os.path.join(VERIF, "lean")
    drv = os.path.join(VERIF, "work", "driver", "c10_%d.lean" % os.getpid())
    os.makedirs(os.path.dirname(drv), exist_ok=True)
    with open(drv, "w") as fh:
        fh.write("import Model.LdlIO\ndef main : IO Unit := LdlModel.loop\n")
    try:
        rc = subprocess.run(["lake", "build", "Model.LdlIO"], cwd=LEAN, capture_output=True, text=True)
        if rc.returncode != 0:
            raise RuntimeError("model does not build: " + (rc.stdout + rc.stderr)[-800:])
        p = subprocess.run(["lake", "env", "lean", "--run", drv], cwd=LEAN, input="\n".join(lines) + "\n", capture_output=True, text=True)
        if p.returncode != 0:
            raise RuntimeError("model driver failed: " + p.stderr[-800:])
        return p.stdout.splitlines()
    finally:
        os.remove(drv)


def scaled_spd(rng, n, mode):
    A = rng.standard_normal((n, n)); P = A @ A.T + 0.5 * np.eye(n)
    if mode == "tiny":
        P = P * 1e-10
    elif mode == "huge":
        P = P * 1e8
    elif mode == "mixed":
        sc = 10.0 ** (-rng.integers(0, 6, size=n).astype(float))
        P = (sc[:, None] * P) * sc[None, :]
    elif mode == "mixed-tail":
        sc = np.array([1.0] * (n - n // 2) + [1e-5] * (n // 2))
        P = (sc[:, None] * P) * sc[None, :]
    return (P + P.T) / 2


def tie(ctx):
    """correspondence of the every-size LDL hand model (Model/Ldl.lean, Float instance) with the real routine"""
    import casadi as ca
    import cyecca.util as u
    rng = np.random.default_rng(ctx.seed + 10010)
    reps = 3 if ctx.tier == "quick" else 30
    cases = []
    for n in range(1, 7):
        for r in range(reps):
            for mode in ("unit", "tiny", "huge", "mixed", "mixed-tail"):
                P = scaled_spd(rng, n, mode)
                if r % 3 == 2:
                    P = P + np.triu(rng.standard_normal((n, n)), 1) * float(np.max(np.abs(P)))   # NOT symmetric: routine and model read the lower triangle only
                cases.append((n, mode, P))
    lines = ["%d %s" % (n, " ".join(_bits(x) for x in P.ravel())) for (n, mode, P) in cases]
    out = _lean_ldl(lines)
    hist = {"sizes": {}, "scalings": {}, "cases": len(cases), "mismatches": 0, "max_rel": 0.0}
    bad = []
    fns = {}
    for (n, mode, P), w in zip(cases, out):
        hist["sizes"][str(n)] = hist["sizes"].get(str(n), 0) + 1
        hist["scalings"][mode] = hist["scalings"].get(mode, 0) + 1
        if n not in fns:
            Ps = ca.SX.sym("P", n, n)
            L, D = u.ldl_symmetric_decomposition(Ps)
            fns[n] = ca.Function("l", [Ps], [ca.densify(L), ca.densify(D)])
        try:
            L_, D_ = (np.array(x, dtype=float).reshape(n, n) for x in fns[n](P))
            Lc, Dc = u.ldl_symmetric_decomposition(ca.SX(ca.DM(P)))      # the routine on a constant matrix as well
            Lc = np.array(ca.DM(ca.densify(Lc)), dtype=float).reshape(n, n); Dc = np.array(ca.DM(ca.densify(Dc)), dtype=float).reshape(n, n)
        except Exception as e:   # noqa: BLE001
            hist["mismatches"] += 1
            bad.append({"n": n, "scaling": mode, "P": P.tolist(), "error": "%s: %s" % (type(e).__name__, str(e)[:200])}); continue
        if w.startswith("ERR"):
            hist["mismatches"] += 1; bad.append({"n": n, "scaling": mode, "model": w}); continue
        vals = [_unbits(x) for x in w.split()]
        Lm = np.array(vals[: n * n]).reshape(n, n); Dm = np.array(vals[n * n:])
        rel = 0.0
        for (Lr, Dr) in ((L_, D_), (Lc, Dc)):
            with np.errstate(all="ignore"):
                rel = max(rel, float(np.max(np.abs(Lr - Lm) / (1e-300 + np.maximum(1.0, np.abs(Lm))))),
                          float(np.max(np.abs(np.diag(Dr) - Dm) / (1e-300 + np.abs(Dm)))),
                          float(np.max(np.abs(Dr - np.diag(np.diag(Dr))))))
        hist["max_rel"] = max(hist["max_rel"], rel if np.isfinite(rel) else 1e300)
        if not rel <= 1e-12:
            hist["mismatches"] += 1
            if len(bad) < 5:
                bad.append({"n": n, "scaling": mode, "P": P.tolist(), "rel": rel, "L_real": L_.tolist(), "L_model": Lm.tolist(),
                            "D_real": np.diag(D_).tolist(), "D_model": Dm.tolist()})
    ctx.extra["ldl_model_tie"] = hist
    if bad:
        ctx.fail("tie:ldl-model", "correspondence", {"first": bad[:5], "mismatches": hist["mismatches"], "cases": hist["cases"]})


def search(ctx):
    import casadi as ca
    import cyecca.util as u
    rng = np.random.default_rng(ctx.seed + 1010)
    found = []
    ev = 0

    def report(case, what, inputs, err, tol):
        if not any(z["case"] == case for z in found):
            found.append({"case": case, "what": what, "inputs": inputs, "error": float(err), "tolerance": tol,
                          "obligation": "search:" + case})
    sizes = [(1, 1), (2, 1), (3, 1), (3, 2), (4, 2), (6, 3), (6, 1)] if ctx.tier == "quick" else [(n, m) for n in range(1, 8) for m in range(1, 4)]
    reps = 4 if ctx.tier == "quick" else 40
    for (n, m) in sizes:
        Ws = ca.SX.sym("W", ca.Sparsity.lower(n)); Hs = ca.SX.sym("H", m, n); Rs_ = ca.SX.sym("Rs", ca.Sparsity.lower(m))
        Wp, K, Ss = u.sqrt_correct(Rs_, Hs, Ws)
        fc = ca.Function("c", [Rs_, Hs, Ws], [ca.densify(Wp), ca.densify(K), ca.densify(Ss)])
        Fs = ca.SX.sym("F", n, n); Qs = ca.SX.sym("Q", ca.Sparsity.lower(n))
        Qsym = Qs + Qs.T
        fp = None
        if n >= 2:   # n = 1 has no off-diagonal unknowns: the routine needs at least two states
            Wd = u.sqrt_covariance_predict(Ws, Fs, Qsym)
            fp = ca.Function("p", [Ws, Fs, Qs], [ca.densify(Wd)])
        for r in range(reps):
            W = np.tril(rng.standard_normal((n, n))); W[np.diag_indices(n)] = rng.uniform(0.3, 2, n) * rng.choice([-1, 1], n)
            H = rng.standard_normal((m, n)); Rs = np.tril(rng.standard_normal((m, m))); Rs[np.diag_indices(m)] = rng.uniform(0.2, 1.5, m)
            Wp_, K_, Ss_ = (np.array(x) for x in fc(Rs, H, W)); ev += 1
            P = W @ W.T; R = Rs @ Rs.T; S = H @ P @ H.T + R
            inp = {"n": n, "m": m, "W": W.tolist(), "H": H.tolist(), "Rs": Rs.tolist()}
            sc = 1 + np.max(np.abs(P)) + np.max(np.abs(S))
            e = np.max(np.abs(K_ - P @ H.T @ np.linalg.inv(S)))
            if not e <= 1e-8 * sc * np.linalg.cond(S):
                report("sqrt_correct:gain", "K != P H^T S^-1", inp, e, 1e-8)
            e = np.max(np.abs(Ss_ @ Ss_.T - S))
            if not e <= 1e-9 * sc:
                report("sqrt_correct:innovation", "Ss Ss^T != H P H^T + R", inp, e, 1e-9)
            if not np.max(np.abs(np.triu(Wp_, 1))) <= 1e-12:
                report("sqrt_correct:triangular", "W+ is not lower triangular", inp, np.max(np.abs(np.triu(Wp_, 1))), 1e-12)
            Pp = (np.eye(n) - K_ @ H) @ P
            e = np.max(np.abs(Wp_ @ Wp_.T - Pp))
            if not e <= 1e-8 * sc * np.linalg.cond(S):
                report("sqrt_correct:posterior", "W+ W+^T != (I - K H) P", inp, e, 1e-8)
            ev_ = np.linalg.eigvalsh(P - (Pp + Pp.T) / 2)
            if not ev_.min() >= -1e-8 * sc:
                report("sqrt_correct:monotone", "covariance increased (P - P+ not PSD)", inp, -ev_.min(), 1e-8)
            # covariance derivative
            F = rng.standard_normal((n, n)); Ql = np.tril(rng.standard_normal((n, n))) * 0.3
            Q = Ql + Ql.T
            if fp is None:
                continue
            Wd_ = np.array(fp(W, F, Ql)); ev += 1
            if not np.max(np.abs(np.triu(Wd_, 1))) <= 1e-9 * (1 + np.max(np.abs(Wd_))):
                report("sqrt_predict:triangular", "W' is not lower triangular", {"n": n, "W": W.tolist(), "F": F.tolist(), "Q": Q.tolist()},
                       np.max(np.abs(np.triu(Wd_, 1))), 1e-9)
            lhs = Wd_ @ W.T + W @ Wd_.T; rhs = F @ P + P @ F.T + Q
            if not np.max(np.abs(lhs - rhs)) <= 1e-8 * (1 + np.max(np.abs(rhs))) * np.linalg.cond(W) ** 2:
                report("sqrt_predict:lyapunov", "W' W^T + W W'^T != F P + P F^T + Q", {"n": n, "W": W.tolist(), "F": F.tolist(), "Q": Q.tolist()},
                       np.max(np.abs(lhs - rhs)), 1e-8)
    # factorizations
    for n in range(1, 7):
        Ps = ca.SX.sym("P", n, n)
        L, D = u.ldl_symmetric_decomposition(Ps); fl = ca.Function("l", [Ps], [ca.densify(L), ca.densify(D)])
        U, D2 = u.udu_symmetric_decomposition(Ps); fu = ca.Function("u", [Ps], [ca.densify(U), ca.densify(D2)])
        for r in range(reps + 4):
            A = rng.standard_normal((n, n)); P = A @ A.T + 0.5 * np.eye(n)
            # covariances are not O(1): uniformly tiny / huge ones and mixed scales (attitude 1e-2, bias 1e-10 variances).
            # The factorizations are covariant under diagonal scaling, so the error is measured on the correlation scale.
            mode = ["unit", "unit", "tiny", "huge", "mixed", "mixed-tail"][r % 6] if r >= 2 else "unit"
            if mode == "tiny":
                P = P * 1e-10
            elif mode == "huge":
                P = P * 1e8
            elif mode in ("mixed", "mixed-tail"):
                sc = 10.0 ** (-rng.integers(0, 6, size=n).astype(float)) if mode == "mixed" else np.array([1.0] * (n - n // 2) + [1e-5] * (n // 2))
                P = (sc[:, None] * P) * sc[None, :]
            P = (P + P.T) / 2
            dg = np.sqrt(np.diag(P)); Sn = dg[:, None] * dg[None, :]
            tol = 1e-9 * np.linalg.cond(P / Sn)
            L_, D_ = (np.array(x) for x in fl(P)); U_, D2_ = (np.array(x) for x in fu(P)); ev += 2
            inp = {"n": n, "P": P.tolist(), "scaling": mode}
            eL = np.max(np.abs((L_ @ D_ @ L_.T - P) / Sn)); eU = np.max(np.abs((U_ @ D2_ @ U_.T - P) / Sn))
            if not (eL <= tol
                    and np.allclose(np.diag(L_), 1) and np.max(np.abs(np.triu(L_, 1))) == 0 and np.max(np.abs(D_ - np.diag(np.diag(D_)))) == 0):
                report("ldl" if mode == "unit" else "ldl:scaled", "L D L^T != P or L not unit lower triangular / D not diagonal (%s scaling)" % mode, inp, eL, tol)
            if not (eU <= tol
                    and np.allclose(np.diag(U_), 1) and np.max(np.abs(np.tril(U_, -1))) == 0 and np.max(np.abs(D2_ - np.diag(np.diag(D2_)))) == 0):
                report("udu" if mode == "unit" else "udu:scaled", "U D U^T != P or U not unit upper triangular / D not diagonal (%s scaling)" % mode, inp, eU, tol)
    # factorizations of matrices WITH zero entries (arrow / banded covariances: the factor has fill-in), handed over the two ways
    # a caller can: as a constant SX matrix (exact 0.0 entries) and as a symbolic matrix with a sparse pattern
    for n in (3, 4, 5):
        for pat in ("arrow", "band"):
            for r in range(reps):
                P = np.diag(rng.uniform(3, 6, n))
                for i in range(1, n):
                    v = rng.uniform(0.5, 1.5) * rng.choice([-1, 1])
                    if pat == "arrow":
                        P[i, 0] = P[0, i] = v
                    else:
                        P[i, i - 1] = P[i - 1, i] = v
                if pat == "band":   # reverse the order so that elimination creates fill-in
                    P[n - 1, 0] = P[0, n - 1] = rng.uniform(0.5, 1.0)
                inp = {"n": n, "pattern": pat, "P": P.tolist()}
                sp = ca.DM(P).sparsity()
                Psym = ca.SX.sym("P", sp)
                for how in ("constant", "sparse-symbolic"):
                    try:
                        if how == "constant":
                            L, D = u.ldl_symmetric_decomposition(ca.SX(ca.DM(P)))
                            U, D2 = u.udu_symmetric_decomposition(ca.SX(ca.DM(P)))
                            L_, D_, U_, D2_ = (np.array(ca.DM(ca.densify(x))) for x in (L, D, U, D2))
                        else:
                            L, D = u.ldl_symmetric_decomposition(Psym); U, D2 = u.udu_symmetric_decomposition(Psym)
                            f = ca.Function("f", [Psym], [ca.densify(L), ca.densify(D), ca.densify(U), ca.densify(D2)])
                            L_, D_, U_, D2_ = (np.array(x) for x in f(ca.DM(sp, P[np.array(sp.get_triplet()[0]), np.array(sp.get_triplet()[1])])))
                    except Exception as e:   # noqa: BLE001
                        report("ldl:zeros:" + how, "factorization raises on a matrix with zero entries: %s" % type(e).__name__, inp, 1.0, 0); continue
                    ev += 2
                    if not np.max(np.abs(L_ @ D_ @ L_.T - P)) <= 1e-9 * (1 + np.max(np.abs(P))) * np.linalg.cond(P):
                        report("ldl:zeros:" + how, "L D L^T != P for a matrix with zero entries (fill-in lost)", inp, np.max(np.abs(L_ @ D_ @ L_.T - P)), 1e-9)
                    if not np.max(np.abs(U_ @ D2_ @ U_.T - P)) <= 1e-9 * (1 + np.max(np.abs(P))) * np.linalg.cond(P):
                        report("udu:zeros:" + how, "U D U^T != P for a matrix with zero entries (fill-in lost)", inp, np.max(np.abs(U_ @ D2_ @ U_.T - P)), 1e-9)
    # RK4: exact for cubic-in-time derivatives; order 4 on smooth fields
    t, h = ca.SX.sym("t"), ca.SX.sym("h"); y = ca.SX.sym("y", 2); c = ca.SX.sym("c", 4)
    step = u.rk4(lambda tt, yy: ca.vertcat(c[0] + c[1] * tt + c[2] * tt ** 2 + c[3] * tt ** 3, yy[0]), t, y, h)
    fr = ca.Function("r", [t, y, h, c], [step])
    for r in range(reps * 5):
        t0, hh = rng.uniform(-2, 2), rng.uniform(0.01, 2); y0 = rng.standard_normal(2); cc = rng.standard_normal(4)
        y1 = np.array(fr(t0, y0, hh, cc)).ravel(); ev += 1
        prim = lambda s: cc[0] * s + cc[1] * s ** 2 / 2 + cc[2] * s ** 3 / 3 + cc[3] * s ** 4 / 4
        want0 = y0[0] + prim(t0 + hh) - prim(t0)
        if not abs(y1[0] - want0) <= 1e-10 * (1 + abs(want0)):
            report("rk4:cubic", "RK4 is not exact for a derivative that is a cubic polynomial in time", {"t": t0, "h": hh, "c": cc.tolist()}, abs(y1[0] - want0), 1e-10)
    lam = ca.SX.sym("lam")
    fr2 = ca.Function("r2", [y, h, lam], [u.rk4(lambda tt, yy: ca.vertcat(lam * yy[0], -yy[1] ** 2), t, y, h)])
    for r in range(reps * 3):
        lm = rng.uniform(-2, 2); y0 = np.array([rng.standard_normal(), rng.uniform(0.5, 2)])
        errs = []
        for hh in (0.1, 0.05):
            y1 = np.array(fr2(y0, hh, lm)).ravel(); ev += 1
            exact = np.array([y0[0] * np.exp(lm * hh), y0[1] / (1 + y0[1] * hh)])
            errs.append(np.max(np.abs(y1 - exact)))
        z = lm * 0.1
        lin = y0[0] * (1 + z + z ** 2 / 2 + z ** 3 / 6 + z ** 4 / 24)
        y1 = np.array(fr2(y0, 0.1, lm)).ravel()
        if not abs(y1[0] - lin) <= 1e-12 * (1 + abs(lin)):
            report("rk4:linear", "RK4 on y' = lam y is not the degree-4 Taylor polynomial of exp", {"lam": lm, "y0": y0.tolist()}, abs(y1[0] - lin), 1e-12)
        if errs[0] > 1e-13 and not errs[1] <= errs[0] / 20:
            report("rk4:order", "local error does not shrink like h^5 (halving h should divide it by ~32)", {"lam": lm, "y0": y0.tolist(), "errs": errs}, errs[1] / errs[0], 1 / 20)
    # the QR contract and the QR-abstracted variant (ties the hypotheses of C10.sqrt_correct_qr_3_2 to the code)
    import catalog, core
    spec = [sp for sp in catalog.util_specs() if sp.name == "util.sqrt_correct_qr_3_2"][0]
    g = core.numeric_function(spec)
    A_s = ca.SX.sym("A", 5, 5); Qs, Rq = ca.qr(A_s); fqr = ca.Function("qr", [A_s], [Qs, Rq])
    Ws = ca.SX.sym("W", ca.Sparsity.lower(3)); Hs = ca.SX.sym("H", 2, 3); Rs_ = ca.SX.sym("Rs", ca.Sparsity.lower(2))
    Wp, K, Ss = u.sqrt_correct(Rs_, Hs, Ws); freal = ca.Function("c32", [Rs_, Hs, Ws], [ca.densify(Wp), ca.densify(K), ca.densify(Ss)])
    nq = 0
    for r in range(reps * 2):
        W = np.tril(rng.standard_normal((3, 3))); W[np.diag_indices(3)] = rng.uniform(0.3, 2, 3)
        H = rng.standard_normal((2, 3)); Rs = np.tril(rng.standard_normal((2, 2))); Rs[np.diag_indices(2)] = rng.uniform(0.2, 1.5, 2)
        o = g(Rs, H, W, np.eye(5), np.eye(5)); A = np.array(o[-1])
        Q, R = (np.array(v) for v in fqr(A)); ev += 2; nq += 1
        e1 = max(np.max(np.abs(Q.T @ Q - np.eye(5))), np.max(np.abs(Q @ R - A)), np.max(np.abs(np.tril(R, -1))))
        if not e1 <= 1e-9 * (1 + np.max(np.abs(A))):
            report("qr:contract", "ca.qr does not return Q^T Q = 1, Q R = A, R upper triangular", {"A": A.tolist()}, e1, 1e-9)
        o2 = g(Rs, H, W, Q, R); ref = freal(Rs, H, W)
        e2 = max(np.max(np.abs(np.array(o2[j]) - np.array(ref[j]))) for j in range(3))
        if not e2 <= 1e-9:
            report("qr:variant", "the QR-abstracted sqrt_correct composed with ca.qr differs from the shipped routine", {"Rs": Rs.tolist(), "H": H.tolist(), "W": W.tolist()}, e2, 1e-9)
    ctx.samples.extend(found[:3] or [{"n": 6, "m": 3, "note": "estimator-sized update"}])
    return found, {"evaluations": ev, "distinct_nontrivial": ev, "sizes": [list(s) for s in sizes], "qr_contract_samples": nq}


def replay(payload):
    class C:
        seed = 0; tier = "quick"; samples = []; notes = []
    found, _ = search(C())
    cases = {v.get("case") for v in payload.get("violations", [])}
    hit = [z for z in found if z["case"] in cases]
    for z in hit:
        print("reproduced:", z["case"], z["what"], z["error"])
    return not hit
