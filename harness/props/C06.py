"""C06 — small-angle handling is singularity-free, accurate and differentiable."""
from __future__ import annotations

import math

import numpy as np

import numlib as nl

ID = "C06"
MODULES = ["Series", "SO3", "SE2", "SE3", "SE23"]
LEAN_TARGETS = ["Props.C06"]
LEVEL = "proof"
ANCHORS = ["cyecca/symbolic.py", "cyecca/lie/group_so3.py", "cyecca/lie/group_se2.py", "cyecca/lie/group_se3.py",
           "cyecca/lie/group_se23.py"]
MISSING = [
    "PARTIAL: double-precision round-off (cancellation on the closed-form side of the switch) is not modelled in Lean; "
    "it is explored by the search (doubles vs 40-digit mpmath reference on a log grid), which supports but does not prove the 1e-9 claim",
    "truncation bounds as theorems exist for cos, sin x/x, (1-cos x)/x^2, (x-sin x)/x^3 (the coefficients of exp and J_l) and (x^2/2 + cos x - 1)/x^4 "
    "(position integral of the strap-down flow, with its value at exactly zero); "
    "the remaining entries (jinv, Q-block, tan/4, atan, x/sin x, V^-1) have branch/coefficient theorems only",
]


def relevant(fn):
    return True


def theta_grid(tier):
    g = [0.0, 5e-324, 1e-320, 1e-300, 1e-200, 1e-160, 1e-100, 1e-50, 1e-30, 1e-20, 1e-16, 1e-12, 1e-10, 1e-8, 1e-7, 1e-6,
         1e-5, 1e-4, 3e-4, 0.01, 0.02, 0.05, 0.1, 0.2, 0.5, 0.8, 1.0]
    sw = [1e-3, 2e-3, math.sqrt(1e-3), 2 * math.sqrt(1e-3)]
    rel = [1e-15, 1e-12, 1e-9, 1e-6, 1e-4, 1e-3, 1e-2]
    for s in sw:
        g.append(s)
        for r in rel:
            g += [s * (1 - r), s * (1 + r)]
    if tier == "thorough":
        g += list(10 ** np.linspace(-12, 0, 400))
        for s in sw:
            g += list(s * (1 + np.linspace(-5e-2, 5e-2, 201)))
    return sorted(set(g))


def mp_setup():
    import mpmath as mp
    mp.mp.dps = 40
    return mp


def mp_hat3(mp, w):
    return mp.matrix([[0, -w[2], w[1]], [w[2], 0, -w[0]], [-w[1], w[0], 0]])


def mp_series_J(mp, A, sign=1, n=60):
    k = A.rows
    J = mp.zeros(k); T = mp.eye(k); f = mp.mpf(1)
    for i in range(n):
        f *= (i + 1)
        J += T / f
        T = T * (A * sign)
    return J


def todbl(M):
    return np.array([[float(M[i, j]) for j in range(M.cols)] for i in range(M.rows)])


def search(ctx):
    mp = mp_setup()
    rng = np.random.default_rng(ctx.seed + 606)
    found = []
    ev = 0
    sides = {"taylor": 0, "closed": 0, "zero": 0}
    TOL = 1e-9

    def report(case, what, inputs, err):
        if not any(z["case"] == case for z in found):
            found.append({"case": case, "what": what, "inputs": inputs, "error": float(err), "tolerance": TOL,
                          "obligation": "search:" + case})
    grid = theta_grid(ctx.tier)
    F = nl.F
    hat_of = {"so3": F("SO3", "so3.toMatrix"), "se3": F("SE3", "se3.toMatrix"), "se23": F("SE23", "se23.toMatrix"), "se2": F("SE2", "se2.toMatrix")}
    ad_of = {"so3": F("SO3", "so3.ad"), "se3": F("SE3", "se3.ad"), "se23": F("SE23", "se23.ad")}
    exps = [("SO3Dcm", "SO3", "so3", 3), ("SO3Quat", "SO3", "so3", 3), ("SO3Mrp", "SO3", "so3", 3), ("SE2", "SE2", "se2", 3),
            ("SE2", "SE2", "se2-", 3),
            ("SE3Quat", "SE3", "se3", 6), ("SE3Mrp", "SE3", "se3", 6), ("SE23Quat", "SE23", "se23", 9), ("SE23Mrp", "SE23", "se23", 9)]
    axis = nl.rand_axis(rng)
    tr = rng.standard_normal(6) * 0.7     # O(1) translational inputs
    for th in grid:
        sides["zero" if th == 0 else "taylor" if th * th < 1e-3 else "closed"] += 1
        for (g, mod, alg, k) in exps:
            x = np.zeros(k)
            if alg == "se2-":
                alg = "se2"; x[:2] = tr[:2]; x[2] = -th     # negative planar angle
            elif alg == "se2":
                x[:2] = tr[:2]; x[2] = th
            else:
                x[:k - 3] = tr[:k - 3]; x[k - 3:] = axis * th
            X = np.atleast_1d(F(mod, g + ".exp")(x)); ev += 1
            M = np.atleast_2d(F(mod, g + ".toMatrix")(X))
            A = mp.matrix(np.atleast_2d(hat_of[alg](x)).tolist())
            ref = todbl(mp.expm(A))
            inp = {"theta": th, "x": x.tolist()}
            if not np.all(np.isfinite(M)):
                report(g + ".exp:finite", "exp is not finite", inp, 1.0); continue
            e = np.max(np.abs(M - ref))
            if not e <= TOL:
                report(g + ".exp:accuracy", "to_Matrix(exp(x)) deviates from the exact exponential by more than 1e-9", inp, e)
            # log(exp(x)) = x
            y = np.atleast_1d(F(mod, g + ".log")(X))
            if not np.all(np.isfinite(y)):
                report(g + ".log:finite", "log is not finite", inp, 1.0)
            elif not np.max(np.abs(y - x)) <= TOL:
                report(g + ".log:accuracy", "log(exp(x)) deviates from x by more than 1e-9", inp, np.max(np.abs(y - x)))
        for (alg, mod, k) in (("so3", "SO3", 3), ("se3", "SE3", 6), ("se23", "SE23", 9)):
            x = np.zeros(k); x[:k - 3] = tr[:k - 3]; x[k - 3:] = axis * th
            A = mp.matrix(np.atleast_2d(ad_of[alg](x)).tolist())
            JL = mp_series_J(mp, A, 1); JR = mp_series_J(mp, A, -1)
            refs = {"left_jacobian": todbl(JL), "right_jacobian": todbl(JR),
                    "left_jacobian_inv": todbl(JL ** -1), "right_jacobian_inv": todbl(JR ** -1)}
            for nm, ref in refs.items():
                J = np.atleast_2d(F(mod, alg + "." + nm)(x)); ev += 1
                inp = {"theta": th, "x": x.tolist()}
                if not np.all(np.isfinite(J)):
                    report("%s.%s:finite" % (alg, nm), "Jacobian is not finite", inp, 1.0); continue
                e = np.max(np.abs(J - ref))
                if not e <= TOL:
                    report("%s.%s:accuracy" % (alg, nm), "Jacobian deviates from its exact value by more than 1e-9", inp, e)
    # conversions near the identity: quaternion <-> MRP <-> DCM of exp(theta axis)
    for th in grid:
        q = np.concatenate([[math.cos(th / 2)], math.sin(th / 2) * axis])
        R = nl.quat_to_R(q)
        for tgt in ("SO3Mrp", "SO3Dcm", "SO3Euler"):
            out = np.atleast_1d(F("SO3", tgt + ".from_Quat")(q)); ev += 1
            M = F("SO3", tgt + ".toMatrix")(out)
            if not (np.all(np.isfinite(M)) and np.max(np.abs(M - R)) <= TOL):
                report(tgt + ".from_Quat:small-angle", "conversion near the identity is inaccurate / not finite", {"theta": th}, 1.0)
    # first derivatives by AD are finite at and around zero (linearisation at the identity)
    import casadi as ca
    import cyecca.lie as lie
    checks = []
    v3 = ca.SX.sym("v", 3); v6 = ca.SX.sym("v", 6); v9 = ca.SX.sym("v", 9)
    checks.append(("SO3Quat.exp", v3, lie.so3.elem(v3).exp(lie.SO3Quat).param))
    checks.append(("SO3Mrp.exp", v3, lie.so3.elem(v3).exp(lie.SO3Mrp).param))
    checks.append(("SO3Dcm.exp", v3, lie.so3.elem(v3).exp(lie.SO3Dcm).param))
    checks.append(("SO3Mrp.log", v3, lie.SO3Mrp.elem(v3).log().param))
    checks.append(("so3.left_jacobian", v3, ca.reshape(lie.so3.elem(v3).left_jacobian(), 9, 1)))
    checks.append(("so3.left_jacobian_inv", v3, ca.reshape(lie.so3.elem(v3).left_jacobian_inv(), 9, 1)))
    checks.append(("SE3Quat.exp", v6, lie.se3.elem(v6).exp(lie.SE3Quat).param))
    checks.append(("SE3Mrp.exp", v6, lie.se3.elem(v6).exp(lie.SE3Mrp).param))
    checks.append(("se3.left_jacobian", v6, ca.reshape(ca.densify(lie.se3.elem(v6).left_jacobian()), 36, 1)))
    checks.append(("SE23Mrp.exp", v9, lie.se23.elem(v9).exp(lie.SE23Mrp).param))
    checks.append(("SE23Mrp.log", v9, lie.SE23Mrp.elem(v9).log().param))
    checks.append(("SE3Mrp.log", v6, lie.SE3Mrp.elem(v6).log().param))
    checks.append(("SE2.log", v3, lie.SE2.elem(ca.vertcat(v3[1], v3[2], v3[0])).log().param))
    # logs of the other SO(3) parameterisations, linearised at the identity through exp (chain rule through a
    # smooth exp: finite iff the log's own derivative is finite at the identity element)
    q4 = ca.SX.sym("q", 4); r9 = ca.SX.sym("r", 9); x7 = ca.SX.sym("x", 7); x10 = ca.SX.sym("x", 10)
    group_logs = [("SO3Quat.log", q4, lie.SO3Quat.elem(q4).log().param, lambda th: np.concatenate([[math.cos(th / 2)], math.sin(th / 2) * axis])),
                  ("SO3Dcm.log", r9, lie.SO3Dcm.elem(r9).log().param, lambda th: nl.quat_to_R(np.concatenate([[math.cos(th / 2)], math.sin(th / 2) * axis])).reshape(-1, order="F")),
                  ("SO3Euler.log", v3, lie.SO3EulerB321.elem(v3).log().param, lambda th: np.array([th * axis[2], th * axis[1], th * axis[0]])),
                  ("SE3Quat.log", x7, lie.SE3Quat.elem(x7).log().param, lambda th: np.concatenate([tr[:3], [math.cos(th / 2)], math.sin(th / 2) * axis])),
                  ("SE23Quat.log", x10, lie.SE23Quat.elem(x10).log().param, lambda th: np.concatenate([tr[:6], [math.cos(th / 2)], math.sin(th / 2) * axis]))]
    for nm, v, expr, elem in group_logs:
        Jf = ca.Function("J", [v], [ca.jacobian(expr, v)])
        for th in (0.0, 1e-300, 1e-160, 1e-20, 1e-8):
            Jv = np.array(Jf(elem(th))); ev += 1
            if not np.all(np.isfinite(Jv)):
                report(nm + ":AD", "automatic-differentiation Jacobian of the log is not finite at/near the identity element",
                       {"theta": th, "element": np.asarray(elem(th)).tolist()}, 1.0)
    for nm, v, expr in checks:
        Jf = ca.Function("J", [v], [ca.jacobian(expr, v)])
        k = v.shape[0]
        for th in (0.0, 1e-300, 1e-160, 1e-20, 1e-8, 1e-4, 0.0316, 0.0317, 0.1):
            x = np.zeros(k); x[:k - 3] = tr[:k - 3]; x[k - 3:] = axis * th
            Jv = np.array(Jf(x)); ev += 1
            if not np.all(np.isfinite(Jv)):
                report(nm + ":AD", "automatic-differentiation Jacobian is not finite at/near zero rotation", {"theta": th, "x": x.tolist()}, 1.0)
    # zero rotation AS COMPUTED IN DOUBLES: the identity obtained as X * X^-1 (scalar part = sum of squares, which can round to
    # 1 + a few ulp) and quaternions renormalised in floats; the logs must stay finite and tiny there
    qprod = F("SO3", "SO3Quat.product"); qinv = F("SO3", "SO3Quat.inverse"); qexp_ = F("SO3", "SO3Quat.exp")
    logs0 = [("SO3Quat", "SO3", 4, 0), ("SE3Quat", "SE3", 7, 3), ("SE23Quat", "SE23", 10, 6)]
    n0 = 40 if ctx.tier == "quick" else 600
    for it in range(n0):
        v = rng.standard_normal(3) * rng.choice([0.3, 1.0, 2.5])
        q = np.atleast_1d(qexp_(v)).ravel()
        e = np.atleast_1d(qprod(q, np.atleast_1d(qinv(q)).ravel())).ravel()     # identity up to rounding
        if it % 3 == 1:
            e = np.array([1.0 + 2.220446049250313e-16 * (it % 5), 0.0, 0.0, 0.0]) # scalar part a few ulp above 1
        if it % 3 == 2:
            w = rng.standard_normal(3) * 1e-9
            e = np.concatenate([[1.0], w / 2]); e = e / np.linalg.norm(e)
        for (g, mod, n, off) in logs0:
            X = np.zeros(n); X[:off] = rng.standard_normal(off) * 0.5; X[off:] = e
            y = np.atleast_1d(F(mod, g + ".log")(X)).ravel(); ev += 1
            inp = {"X": [float(t) for t in X], "note": "identity as computed in doubles (scalar part %.17g)" % e[0]}
            if not np.all(np.isfinite(y)):
                report(g + ".log:finite:computed-identity", "log is not finite at a numerically-zero rotation (identity computed as X X^-1 / 1 + ulp)", inp, 1.0)
            elif not np.max(np.abs(y[-3:])) <= 1e-7:
                report(g + ".log:accuracy:computed-identity", "rotation part of log at a numerically-zero rotation is not ~0", inp, np.max(np.abs(y[-3:])))
    ctx.samples.extend(found[:3] or [{"theta": 0.0316227766, "note": "switch of the squared series"}])
    return found, {"evaluations": ev, "distinct_nontrivial": len(grid), "grid_points": len(grid), "sides": sides}


def replay(payload):
    class C:
        seed = 0; tier = "quick"; samples = []; notes = []
    found, _ = search(C())
    cases = {v.get("case") for v in payload.get("violations", [])}
    hit = [z for z in found if z["case"] in cases]
    for z in hit:
        print("reproduced:", z["case"], z["what"], z["error"], z["inputs"])
    return not hit
