"""C13 — control allocation yields reachable motor commands and honours feasible demands."""
from __future__ import annotations

import itertools

import numpy as np

import numlib as nl

ID = "C13"
MODULES = ["Alloc"]
LEAN_TARGETS = ["Props.C13"]
ANCHORS = ["cyecca/models/rdd2.py"]
MISSING = []


def relevant(fn):
    return True


def mixer(l, Cm):
    """G with G @ A = 1: (T, Mx, My, Mz) realised by motor forces F"""
    return np.array([[1, 1, 1, 1], [-l, l, l, -l], [-l, l, -l, l], [-Cm, -Cm, Cm, Cm]], float)


def amat(l, Cm):
    return np.array([[1, -1 / l, -1 / l, -1 / Cm], [1, 1 / l, 1 / l, -1 / Cm], [1, 1 / l, -1 / l, 1 / Cm],
                     [1, -1 / l, 1 / l, 1 / Cm]]) / 4


def check_one(f, F_max, l, Cm, Ct, T, M, found, stats, label):
    omega, Fp, Fm, Ft, Msat = f(F_max, l, Cm, Ct, T, M)
    stats["evaluations"] += 1
    tol = 1e-9 * (1 + F_max)
    inp = {"F_max": F_max, "l": l, "Cm": Cm, "Ct": Ct, "T": T, "M": list(map(float, M)), "kind": label}

    def report(case, what, err):
        if not any(x["case"] == case for x in found):
            found.append({"case": case, "what": what, "function": "rdd2.control_allocation", "inputs": inp,
                          "error": float(err), "tolerance": tol, "Fp_sum": Fp.tolist(), "F_sum": (Fm + Ft).tolist()})
    if not (np.all(np.isfinite(Fp)) and np.all(Fp >= -tol) and np.all(Fp <= F_max + tol)):
        report("bounds", "allocated motor force outside [0, F_max]", np.max(np.abs(Fp)))
    if not (np.all(np.isfinite(omega)) and np.all(omega >= 0)):
        report("omega", "motor speed not a finite non-negative real", 1.0)
    else:
        d = np.max(np.abs(omega ** 2 * Ct - Fp))
        if d > 1e-9 * (1 + F_max):
            report("omega:value", "omega^2 Ct != Fp", d)
    # range-limited demand
    T_sat = min(max(T, 0.0), 4 * F_max)
    M_max = l * 4 * F_max / 2
    M_sat = np.clip(M, -M_max, M_max)
    d = np.max(np.abs(Msat - M_sat))
    if d > tol * (1 + l):
        report("msat", "M_sat is not the clamp of M to +-l*T_max/2", d)
    A = amat(l, Cm)
    F_sum = A @ np.concatenate([[T_sat], M_sat])
    d = np.max(np.abs(F_sum - (Fm + Ft)))
    if d > tol * (1 + 1 / l + 1 / Cm) * (1 + np.max(np.abs(M_sat))):
        report("fsum", "F_moment + F_thrust is not A @ (T_sat, M_sat)", d)
    G = mixer(l, Cm)
    real = G @ Fp
    scale = (1 + l + Cm)
    if np.all(F_sum >= 0) and np.all(F_sum <= F_max):
        stats["feasible"] += 1
        d = np.max(np.abs(Fp - F_sum))
        if d > tol:
            report("feasible_exact", "jointly achievable demand is not reproduced exactly", d)
    spread = np.max(Fm) - np.min(Fm)
    if spread <= F_max:
        stats["moment_ok"] += 1
        d = np.max(np.abs(real[1:] - M_sat))
        if d > tol * scale * 4:
            report("moment_priority", "moment achievable but realised moment differs from demanded", d)
        # least collective shift: tau closest to T_sat/4 within [-min Fm, F_max - max Fm]
        lo, hi = -np.min(Fm), F_max - np.max(Fm)
        tau_best = min(max(T_sat / 4, lo), hi)
        tau = np.mean(Fp - Fm)
        if abs(tau - tau_best) > tol * 4:
            report("least_shift", "collective thrust shifted by more than the least amount needed", abs(tau - tau_best))


def cases(rng, n):
    """structured demands: interior, saturated, and exact branch boundaries C1 = 0 / C2 = 0"""
    out = []
    for k in range(n):
        F_max = float(rng.choice([1.0, 4.0, 7.3, 20.0]))
        l = float(rng.choice([0.1, 0.25, 0.5, 1.0]))
        Cm = float(rng.choice([0.01, 0.05, 0.016, 1.0]))
        Ct = float(rng.choice([1e-6, 8.5e-6, 1e-3]))
        kind = k % 6
        if kind == 0:      # nominal
            T = rng.uniform(0.5, 3.5) * F_max
            M = rng.standard_normal(3) * np.array([l, l, Cm]) * F_max * 0.2
        elif kind == 1:    # far beyond saturation
            T = rng.uniform(-2, 10) * F_max
            M = rng.standard_normal(3) * np.array([l, l, Cm]) * F_max * 5
        elif kind == 2:    # zero moment, any thrust
            T = rng.uniform(-1, 6) * F_max
            M = np.zeros(3)
        elif kind == 3:    # moment with spread close to F_max
            T = rng.uniform(0, 4) * F_max
            M = rng.standard_normal(3) * np.array([l, l, Cm]) * F_max
        elif kind == 5:    # no (or negative) thrust demanded, a moment that is achievable alone: thrust must be RAISED by the least amount
            T = float(rng.choice([0.0, -0.3, -2.0, 1e-3])) * F_max
            M = rng.standard_normal(3) * np.array([l, l, Cm]) * F_max * 0.15
        else:
            T = None
            M = None
        out.append((F_max, l, Cm, Ct, T, M, ["nominal", "saturated", "zero-moment", "spread", "boundary", "no-thrust"][kind]))
    return out


def boundary_demands(F_max, l, Cm):
    """(T, M) whose F_sum has entries exactly 0 and/or exactly F_max (dyadic data: exact in doubles)"""
    G = mixer(l, Cm)
    outs = []
    vals = [0.0, F_max, F_max / 2, F_max / 4, 3 * F_max / 4]
    for Fs in itertools.product(vals, repeat=4):
        Fs = np.array(Fs)
        if Fs.max() != F_max and Fs.min() != 0.0:
            continue
        tm = G @ Fs
        outs.append((float(tm[0]), tm[1:], Fs))
    return outs


def search(ctx):
    rng = np.random.default_rng(ctx.seed + 1313)
    f = nl.F("Alloc", "rdd2.control_allocation")
    found = []
    stats = {"evaluations": 0, "feasible": 0, "moment_ok": 0}
    n = 120 if ctx.tier == "quick" else 3000
    for (F_max, l, Cm, Ct, T, M, kind) in cases(rng, n):
        if T is None:
            continue
        check_one(f, F_max, l, Cm, Ct, T, M, found, stats, kind)
    # exact boundaries, dyadic constants so that the boundary is hit exactly in doubles
    nb = 0
    for (F_max, l, Cm) in [(4.0, 0.25, 0.0625), (1.0, 0.5, 0.125), (8.0, 1.0, 1.0)]:
        bd = boundary_demands(F_max, l, Cm)
        step = 1 if ctx.tier == "thorough" else max(1, len(bd) // 150)
        for (T, M, Fs) in bd[::step]:
            check_one(f, F_max, l, Cm, 2.0 ** -17, T, M, found, stats, "boundary")
            nb += 1
    stats["boundary_cases"] = nb
    for x in found:
        x["obligation"] = "search:" + x["case"]
    ctx.samples.extend(found[:3] or [{"F_max": 4.0, "l": 0.25, "Cm": 0.0625, "T": 4.0, "M": [-0.0, -0.0, -0.0], "kind": "boundary example"}])
    return found, {"evaluations": stats["evaluations"], "distinct_nontrivial": stats["feasible"] + stats["moment_ok"],
                   "feasible_cases": stats["feasible"], "moment_achievable_cases": stats["moment_ok"], "boundary_cases": nb}


def replay(payload):
    f = nl.F("Alloc", "rdd2.control_allocation")
    ok = True
    for v in payload.get("violations", []):
        i = v.get("inputs")
        if not i:
            continue
        found, stats = [], {"evaluations": 0, "feasible": 0, "moment_ok": 0}
        check_one(f, i["F_max"], i["l"], i["Cm"], i["Ct"], i["T"], np.array(i["M"]), found, stats, "replay")
        if any(x["case"] == v["case"] for x in found):
            print("reproduced:", v["case"], found[0]["Fp_sum"], "vs F_sum", found[0]["F_sum"]); ok = False
    return ok
